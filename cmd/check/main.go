// Command check runs one property check: check <ID> <quick|thorough|replay> [replay-file].
package main

import (
	"encoding/json"
	"fmt"
	"os"

	"verif/internal/echx"

	"verif/internal/ev"
)

type checkFn struct {
	level string
	run   func(r *ev.Run, replay string)
}

var registry = map[string]checkFn{}

// streamReplay: checks whose replay files are self-contained client streams (+keys, +later records)
var streamReplay = map[string]bool{"C02": true, "C03": true, "C04": true, "C05": true, "C08": true}

// workers are sub-process entry points: check <ID> worker <args...>
var workers = map[string]func(args []string){}

func main() {
	if len(os.Args) < 3 {
		fmt.Fprintln(os.Stderr, "usage: check <ID> <quick|thorough|replay> [file]")
		os.Exit(2)
	}
	id, tier := os.Args[1], os.Args[2]
	if w, ok := workers[id]; ok && tier == "worker" {
		w(os.Args[3:])
		return
	}
	c, ok := registry[id]
	if !ok {
		ev.ToolError("unknown check %q", id)
	}
	if tier != "quick" && tier != "thorough" && tier != "replay" {
		ev.ToolError("unknown tier %q", tier)
	}
	replay := ""
	if len(os.Args) > 3 {
		replay = os.Args[3]
	}
	if tier == "replay" && streamReplay[id] {
		// self-contained replay of a stream-based ECH case: no generator, no explorer
		b, err := os.ReadFile(replay)
		if err != nil {
			ev.ToolError("%v", err)
		}
		var doc struct {
			Key    string         `json:"key"`
			What   string         `json:"what"`
			Replay map[string]any `json:"replay"`
		}
		if err := json.Unmarshal(b, &doc); err != nil || doc.Replay == nil {
			ev.ToolError("replay file: %v", err)
		}
		fmt.Printf("recorded violation: %s\n%s\n--- re-execution on the current tree ---\n%s", doc.Key, doc.What, echx.ReplayStream(doc.Replay))
		return
	}
	r := ev.Begin(id, tier, c.level)
	c.run(r, replay)
	r.Finish()
}
