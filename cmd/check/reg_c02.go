package main

import (
	"verif/checks/c02"
	"verif/internal/ev"
)

func init() { registry["C02"] = checkFn{"fault_enumeration", func(r *ev.Run, _ string) { c02.Run(r) }} }
