package main

import (
	"verif/checks/c03"
	"verif/internal/ev"
)

func init() { registry["C03"] = checkFn{"model_checking", func(r *ev.Run, _ string) { c03.Run(r) }} }
