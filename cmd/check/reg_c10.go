//go:build vsched

package main

import (
	"verif/checks/c10"
	"verif/internal/ev"
)

func init() {
	registry["C10"] = checkFn{"model_checking", func(r *ev.Run, replay string) { c10.Run(r, replay) }}
	registry["C08D"] = checkFn{"model_checking", func(r *ev.Run, replay string) { c10.RunDeadline(r) }}
}
