package main

import (
	"strconv"

	"verif/checks/c12"
	"verif/internal/ev"
)

func init() {
	registry["C12"] = checkFn{"exploration", func(r *ev.Run, _ string) { c12.Run(r) }}
	workers["C12"] = func(a []string) {
		i, _ := strconv.Atoi(a[1])
		n, _ := strconv.Atoi(a[2])
		c12.Worker(a[0], i, n)
	}
}
