//go:build vsched

package main

import (
	"strconv"

	"verif/checks/c18"
	"verif/internal/ev"
)

func init() {
	registry["C18"] = checkFn{"model_checking", func(r *ev.Run, replay string) { c18.Run(r, replay) }}
	workers["C18"] = func(a []string) {
		i, _ := strconv.Atoi(a[1])
		n, _ := strconv.Atoi(a[2])
		c18.Worker(a[0], i, n)
	}
}
