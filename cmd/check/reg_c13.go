package main

import (
	"verif/checks/c13"
	"verif/internal/ev"
)

func init() { registry["C13"] = checkFn{"exploration", func(r *ev.Run, _ string) { c13.Run(r) }} }
