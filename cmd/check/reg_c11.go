package main

import (
	"verif/checks/c11"
	"verif/internal/ev"
)

func init() { registry["C11"] = checkFn{"exploration", func(r *ev.Run, _ string) { c11.Run(r) }} }
