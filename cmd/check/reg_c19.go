package main

import (
	"verif/checks/c19"
	"verif/internal/ev"
)

func init() { registry["C19"] = checkFn{"model_checking", func(r *ev.Run, _ string) { c19.Run(r) }} }
