package main

import (
	"verif/checks/c09"
	"verif/internal/ev"
)

func init() { registry["C09"] = checkFn{"exploration", func(r *ev.Run, _ string) { c09.Run(r) }} }
