package main

import (
	"verif/checks/c17"
	"verif/internal/ev"
)

func init() { registry["C17"] = checkFn{"fault_enumeration", func(r *ev.Run, _ string) { c17.Run(r) }} }
